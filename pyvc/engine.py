"""PyVC symbolic executor: path-wise forward execution of the *real* AST of a gfapy function.

Every path ends in ("return", v), ("fall", None) or ("raise", Exc).  Calls are replaced by callee
contracts (models) or, for helpers explicitly marked `inline`, by the callee's own real AST.
A construct outside the subset raises Unsupported: the function is then out of reach for this run.
"""
import ast, builtins, inspect, types, z3
from . import rx, simp
from .values import *
from . import frontend


class St:
    """path state (treated as immutable: every update returns a new St)"""
    __slots__ = ("env", "heap", "zh", "pc", "ghost")

    def __init__(self, env=None, heap=None, zh=None, pc=(), ghost=None):
        self.env = env or {}
        self.heap = heap or {}
        self.zh = zh or {}
        self.pc = tuple(pc)
        self.ghost = ghost or {}

    def bind(self, name, v):
        e = dict(self.env); e[name] = v
        return St(e, self.heap, self.zh, self.pc, self.ghost)

    def assume(self, *conds):
        return St(self.env, self.heap, self.zh, self.pc + tuple(conds), self.ghost)

    def setattr(self, obj, attr, v):
        h = dict(self.heap); d = dict(h.get(obj.oid, {})); d[attr] = v; h[obj.oid] = d
        return St(self.env, h, self.zh, self.pc, self.ghost)

    def with_env(self, env):
        return St(env, self.heap, self.zh, self.pc, self.ghost)

    def with_zh(self, zh):
        return St(self.env, self.heap, zh, self.pc, self.ghost)

    def with_ghost(self, k, v):
        g = dict(self.ghost); g[k] = v
        return St(self.env, self.heap, self.zh, self.pc, g)

    def attrs(self, obj):
        return self.heap.get(obj.oid, {})


class Frame:
    def __init__(self, func, node, cls_ctx, globs, label):
        self.func, self.node, self.cls_ctx, self.globs, self.label = func, node, cls_ctx, globs, label
        # loop ordinal = position of the for statement among the loops of the function, in source order (independent of the path taken)
        loops = sorted((n for n in ast.walk(node) if isinstance(n, (ast.For, ast.While))), key=lambda n: (n.lineno, n.col_offset)) if node is not None else []
        self.loop_index = {id(n): k for k, n in enumerate(loops)}


class Engine:
    MAX_DEPTH = 8

    def __init__(self, repo, models=None, inline=(), invariants=None, name_calls=None, on_unsupported=None, alloc=None, options=None):
        self.repo = repo
        # options: kinds = {code: python class} for heap objects whose class is the symbolic field `kind` (code 0 = None, id -1);
        #          alloc_lists = True: an empty list display allocates a list object with identity on the z3 heap
        self.options = dict(options or {})
        self.models = dict(models or {})          # live function/class object -> model
        self.name_calls = dict(name_calls or {})  # call-site spelling -> model (takes precedence)
        self.inline = set(inline)                 # live function objects that may be inlined
        self.alloc = dict(alloc or {})            # class -> heap field names set by its constructor (positional order)
        self.invariants = invariants or {}        # (qualname, loop ordinal) -> spec
        self.facts = []                           # definitional facts of Skolem terms (assumed globally)
        self.obl = []                             # side obligations (name, pc, goal)
        self.frames = []
        self.inlined = {}                         # qualname -> sha of inlined callee text
        self.n_feas = 0
        from . import builtins_model
        self.bm = builtins_model.Builtins(self)

    # ------------------------------------------------------------------ solver helpers
    def feasible(self, st, *extra):
        """may-be-feasible test used to prune branches; quantified conjuncts are dropped (over-approximation: sound, only more paths)"""
        self.n_feas += 1
        s = z3.Solver(); s.set("timeout", 3000)
        conj = [c for c in list(st.pc) + list(extra) if not simp.has_quantifier(c)]
        s.add(*simp.prepare(self.facts, conj))
        return s.check() != z3.unsat

    def valid(self, st, goal):
        s = z3.Solver(); s.set("timeout", 3000)
        s.add(*simp.prepare(self.facts, list(st.pc), goal))
        return s.check() == z3.unsat

    # ------------------------------------------------------------------ value helpers
    def member(self, x, R):
        """x ∈ R as a z3 Bool over the root variable"""
        if isinstance(x, VStr):
            return z3.InRe(x.root, x.lift(R))
        if isinstance(x, str):
            return z3.BoolVal(rx.member_concrete(x, R))
        if is_sym(x) and x.sort() == Str:
            return z3.InRe(x, R)
        raise Unsupported("membership of %r" % (x,))

    def is_text(self, x):
        return isinstance(x, (VStr, str)) or (is_sym(x) and x.sort() == Str)

    def truth(self, v):
        if hasattr(v, "pyvc_truth"):
            return v.pyvc_truth(self)
        if isinstance(v, bool):
            return z3.BoolVal(v)
        if v is None:
            return z3.BoolVal(False)
        if isinstance(v, int):
            return z3.BoolVal(v != 0)
        if isinstance(v, str):
            return z3.BoolVal(v != "")
        if is_sym(v):
            if z3.is_bool(v):
                return v
            if v.sort() == I:
                return v != 0
            if v.sort() == Str:
                return v != z3.StringVal("")
        if isinstance(v, VStr):
            return self.member(v, z3.Plus(rx.ANY))
        if isinstance(v, (list, tuple, dict)):
            return z3.BoolVal(len(v) > 0)
        if isinstance(v, Pos):
            return z3.Or(v.last, v.v != 0)
        if isinstance(v, Opt):
            return z3.And(z3.Not(v.isnone), self.truth(v.val))
        if isinstance(v, SList):
            return v.n > 0
        if isinstance(v, LRef):
            return self._cur_zh["L_n"][v.id] > 0
        if isinstance(v, RefsDict):
            if "refs_nonempty" not in self._cur_zh:
                raise Unsupported("truth of the _refs dict (not modelled by this contract)")
            return self._cur_zh["refs_nonempty"][v.owner.t]
        if isinstance(v, Obj):
            import gfapy
            if v.cls is not None and issubclass(v.cls, gfapy.Placeholder):
                return z3.BoolVal(False)
            if v.cls is not None and (hasattr(v.cls, "__bool__") or hasattr(v.cls, "__len__")):
                raise Unsupported("truth of object with __bool__/__len__: %r" % (v,))
            return z3.BoolVal(True)
        if isinstance(v, (Ref, Exc, BoundMethod)) or inspect.isclass(v) or inspect.isfunction(v) or inspect.ismodule(v):
            return z3.BoolVal(True)
        if isinstance(v, (float,)):
            return z3.BoolVal(v != 0)
        if type(v).__name__ in ("MatchObj",):
            return z3.BoolVal(True)
        raise Unsupported("truth of %r" % (v,))

    def eq(self, a, b, st=None):
        """Python == on modelled values, as a z3 Bool (no side effects, cannot raise)"""
        if isinstance(a, Opt) or isinstance(b, Opt):
            if isinstance(b, Opt) and not isinstance(a, Opt):
                a, b = b, a
            if b is None:
                return a.isnone
            if isinstance(b, Opt):
                return z3.Or(z3.And(a.isnone, b.isnone), z3.And(z3.Not(a.isnone), z3.Not(b.isnone), self.eq(a.val, b.val, st)))
            return z3.And(z3.Not(a.isnone), self.eq(a.val, b, st))
        if a is None or b is None:
            return z3.BoolVal(a is None and b is None)
        if isinstance(a, (list, tuple)) and isinstance(b, (list, tuple)):
            if type(a) is not type(b) or len(a) != len(b):
                return z3.BoolVal(False)
            return z3.And(*[self.eq(x, y, st) for x, y in zip(a, b)]) if a else z3.BoolVal(True)
        if isinstance(a, Pos) or isinstance(b, Pos):
            av = a.v if isinstance(a, Pos) else a
            bv = b.v if isinstance(b, Pos) else b
            if self.is_int(av) and self.is_int(bv):
                return S(av) == S(bv)          # LastPos.__eq__ compares values only (contract of lastpos.LastPos.__eq__)
            return z3.BoolVal(False)
        if isinstance(a, VStr) or isinstance(b, VStr):
            if isinstance(b, VStr) and not isinstance(a, VStr):
                a, b = b, a
            cb = conc(b)
            if isinstance(cb, str):
                return self.member(a, z3.Re(cb))
            if not self.is_text(b):
                return z3.BoolVal(False)
            raise Unsupported("equality of two symbolic texts")
        if isinstance(a, bool) or isinstance(b, bool) or (is_sym(a) and z3.is_bool(a)) or (is_sym(b) and z3.is_bool(b)):
            if (isinstance(a, bool) or (is_sym(a) and z3.is_bool(a))) and (isinstance(b, bool) or (is_sym(b) and z3.is_bool(b))):
                return S(a) == S(b)
            raise Unsupported("bool compared with non-bool")
        if self.is_int(a) and self.is_int(b):
            return S(a) == S(b)
        if self.is_text(a) and self.is_text(b):
            return S(a) == S(b)
        if (self.is_int(a) and self.is_text(b)) or (self.is_text(a) and self.is_int(b)):
            return z3.BoolVal(False)
        if isinstance(a, Obj) and isinstance(b, Obj):
            if a.cls is not None and "__eq__" in a.cls.__dict__ or (a.cls and any("__eq__" in k.__dict__ for k in a.cls.__mro__[:-1])):
                raise Unsupported("== on objects with __eq__ outside a call model: %r" % (a,))
            return z3.BoolVal(a.oid == b.oid)
        if isinstance(a, Ref) and isinstance(b, Ref):
            return a.t == b.t
        if isinstance(a, Obj) or isinstance(b, Obj):
            o, x = (a, b) if isinstance(a, Obj) else (b, a)
            if o.cls is not None and any("__eq__" in k.__dict__ for k in o.cls.__mro__[:-1]):
                raise Unsupported("== on object with __eq__: %r" % (o,))
            return z3.BoolVal(False)
        if inspect.isclass(a) or inspect.isclass(b):
            return z3.BoolVal(a is b)
        raise Unsupported("eq %r %r" % (a, b))

    def is_int(self, x):
        return (isinstance(x, int) and not isinstance(x, bool)) or (is_sym(x) and x.sort() == I)

    def lift_const(self, v):
        return S(v)

    # ------------------------------------------------------------------ running a function
    def run(self, func, args, st=None, label=None):
        """symbolically execute the real body of live function `func` with positional `args` (dict name->value also accepted)"""
        st = st or St()
        node, info = frontend.load_function(self.repo, func)
        self.root_info = info
        return list(self.call_body(func, node, args, {}, st, label or info["qualname"]))

    def call_body(self, func, node, args, kwargs, st, label):
        if len(self.frames) >= self.MAX_DEPTH:
            raise Unsupported("inlining depth")
        env = self.bind_params(node, args, kwargs, st)
        qual = getattr(func, "__qualname__", "")
        cls_ctx = qual.split(".")[-2] if "." in qual and "<locals>" not in qual else None
        fr = Frame(func, node, cls_ctx, getattr(func, "__globals__", {}), label)
        self.frames.append(fr)
        caller_env = st.env
        try:
            for kind, val, st2 in self.block(node.body, st.with_env(env)):
                st3 = st2.with_env(caller_env)
                if kind == "fall":
                    yield ("return", None, st3)
                elif kind in ("return", "raise"):
                    yield (kind, val, st3)
                else:
                    raise Unsupported("break/continue escaping function")
        finally:
            self.frames.pop()

    def bind_params(self, node, args, kwargs, st):
        if isinstance(args, dict):
            return dict(args)
        a = node.args
        if a.kwonlyargs or a.posonlyargs:
            raise Unsupported("kwonly/posonly params")
        names = [x.arg for x in a.args]
        env = {}
        args = list(args)
        if len(args) > len(names):
            if a.vararg is None:
                raise Unsupported("too many positional arguments")
            env[a.vararg.arg] = tuple(args[len(names):])
            args = args[:len(names)]
        elif a.vararg is not None:
            env[a.vararg.arg] = ()
        for n, v in zip(names, args):
            env[n] = v
        ndef = len(a.defaults)
        for i, n in enumerate(names):
            if n in env:
                continue
            if n in kwargs:
                env[n] = kwargs[n]
                continue
            j = i - (len(names) - ndef)
            if j < 0:
                raise Unsupported("missing argument %s" % n)
            d = a.defaults[j]
            if not isinstance(d, ast.Constant):
                try:
                    env[n] = ast.literal_eval(d)
                except Exception:
                    raise Unsupported("non-constant default")
            else:
                env[n] = d.value
        for k in kwargs:
            if k not in names:
                if a.kwarg is None:
                    raise Unsupported("unexpected keyword %s" % k)
        if a.kwarg is not None:
            env[a.kwarg.arg] = {k: v for k, v in kwargs.items() if k not in names}
        return env

    # ------------------------------------------------------------------ statements
    def block(self, stmts, st):
        if not stmts:
            yield ("fall", None, st)
            return
        for kind, val, st2 in self.stmt(stmts[0], st):
            if kind == "fall":
                yield from self.block(stmts[1:], st2)
            else:
                yield (kind, val, st2)

    def ev(self, e, st, k):
        for tag, v, st2 in self.expr(e, st):
            if tag == "raise":
                yield ("raise", v, st2)
            else:
                yield from k(v, st2)

    def stmt(self, s, st):
        self._cur_zh = st.zh
        m = getattr(self, "s_" + type(s).__name__, None)
        if m is None:
            raise Unsupported("statement %s" % type(s).__name__)
        yield from m(s, st)

    def s_Expr(self, s, st):
        if isinstance(s.value, ast.Constant):
            yield ("fall", None, st)
            return
        yield from self.ev(s.value, st, lambda v, st2: iter([("fall", None, st2)]))

    def s_Pass(self, s, st):
        yield ("fall", None, st)

    def s_Break(self, s, st):
        yield ("break", None, st)

    def s_Continue(self, s, st):
        yield ("continue", None, st)

    def s_Return(self, s, st):
        if s.value is None:
            yield ("return", None, st)
            return
        yield from self.ev(s.value, st, lambda v, st2: iter([("return", v, st2)]))

    def s_Raise(self, s, st):
        if s.exc is None:
            if "__exc__" not in st.env:
                raise Unsupported("bare raise outside handler")
            yield ("raise", st.env["__exc__"], st)
            return
        def k(v, st2):
            if isinstance(v, Exc):
                yield ("raise", v, st2)
            elif inspect.isclass(v) and issubclass(v, BaseException):
                yield ("raise", Exc(v), st2)
            else:
                raise Unsupported("raise of %r" % (v,))
        if isinstance(s.exc, ast.Call):
            # raise C(<message>): the class and the path condition are kept, the message arguments are not evaluated (extraction drop
            # "message arguments of raise", listed in every evidence file)
            outs = list(self.expr(s.exc.func, st))
            if len(outs) == 1 and outs[0][0] == "val" and inspect.isclass(outs[0][1]) and issubclass(outs[0][1], BaseException):
                yield ("raise", Exc(outs[0][1]), outs[0][2])
                return
        yield from self.ev(s.exc, st, k)

    def s_Assert(self, s, st):
        def k(c, st2):
            c = self.truth(c)
            if self.feasible(st2, c):
                yield ("fall", None, st2.assume(c))
            if self.feasible(st2, z3.Not(c)):
                yield ("raise", Exc(AssertionError), st2.assume(z3.Not(c)))
        yield from self.ev(s.test, st, k)

    def s_Assign(self, s, st):
        if len(s.targets) != 1:
            raise Unsupported("chained assignment")
        yield from self.ev(s.value, st, lambda v, st2: self.assign(s.targets[0], v, st2))

    def assign(self, tgt, v, st):
        if isinstance(tgt, ast.Name):
            yield ("fall", None, st.bind(tgt.id, v))
        elif isinstance(tgt, (ast.Tuple, ast.List)):
            if not isinstance(v, (tuple, list)) or len(v) != len(tgt.elts):
                raise Unsupported("unpacking of %r" % (v,))
            def go(i, st):
                if i == len(tgt.elts):
                    yield ("fall", None, st)
                    return
                for kind, val, st2 in self.assign(tgt.elts[i], v[i], st):
                    if kind == "fall":
                        yield from go(i + 1, st2)
                    else:
                        yield (kind, val, st2)
            yield from go(0, st)
        elif isinstance(tgt, ast.Attribute):
            def k(o, st2):
                yield from self.store_attr(o, self.mangle(tgt.attr), v, st2)
            yield from self.ev(tgt.value, st, k)
        elif isinstance(tgt, ast.Subscript):
            def k(o, st2):
                def k2(i, st3):
                    yield from self.store_item(o, i, v, st3)
                yield from self.ev(tgt.slice, st2, k2)
            yield from self.ev(tgt.value, st, k)
        else:
            raise Unsupported("assignment target %s" % type(tgt).__name__)

    def store_attr(self, o, attr, v, st):
        if isinstance(o, Obj):
            yield ("fall", None, st.setattr(o, attr, v))
        elif isinstance(o, Ref) and attr == "_refs":
            if v != {}:
                raise Unsupported("assignment of %r to _refs" % (v,))
            zh = dict(st.zh)
            zh["refs_has"] = z3.Store(zh["refs_has"], o.t, z3.K(Str, z3.BoolVal(False)))
            zh["refs_nonempty"] = z3.Store(zh["refs_nonempty"], o.t, z3.BoolVal(False))
            yield ("fall", None, st.with_zh(zh))
        elif isinstance(o, Ref):
            zh = dict(st.zh)
            if attr not in zh:
                raise Unsupported("store to unmodelled heap field %s" % attr)
            zh[attr] = z3.Store(zh[attr], o.t, self.unwrap_ref(v))
            yield ("fall", None, st.with_zh(zh).with_ghost("dirty", True))
        else:
            raise Unsupported("attribute store on %r" % (o,))

    def unwrap_ref(self, v):
        if isinstance(v, Ref):
            return v.t
        if v is None and self.options.get("kinds"):
            return NONE_T
        if self.options.get("opaque_elems") and not (is_sym(v) or isinstance(v, (int, bool))):
            return fresh("elem", I)                # element whose content the contract does not speak about
        return S(v)

    def store_item(self, o, i, v, st):
        if hasattr(o, "pyvc_setitem"):
            yield from o.pyvc_setitem(self, i, v, st)
            return
        if isinstance(o, RefsDict):
            # self._refs[key] = <list value>: a NEW list object is stored under key
            if not isinstance(v, (SList, LRef)):
                if isinstance(v, list) and not v:
                    v = SList(z3.IntVal(0), z3.K(I, z3.IntVal(0)))
                else:
                    raise Unsupported("store of %r into _refs" % (v,))
            c = self.contents(v, st)
            zh = dict(st.zh)
            nid = zh["next_list"]
            zh["next_list"] = nid + 1
            zh["L_n"] = z3.Store(zh["L_n"], nid, c.n)
            zh["L_e"] = z3.Store(zh["L_e"], nid, c.el)
            zh["refs"] = z3.Store(zh["refs"], o.owner.t, z3.Store(zh["refs"][o.owner.t], S(i), nid))
            zh["refs_has"] = z3.Store(zh["refs_has"], o.owner.t, z3.Store(zh["refs_has"][o.owner.t], S(i), z3.BoolVal(True)))
            if "refs_nonempty" in zh:
                zh["refs_nonempty"] = z3.Store(zh["refs_nonempty"], o.owner.t, z3.BoolVal(True))
            yield ("fall", None, st.with_zh(zh))
            return
        if isinstance(o, LRef):
            zh = dict(st.zh)
            if isinstance(i, SliceV):
                if not (i.lo is None and i.hi is None):
                    raise Unsupported("slice store other than [:]")
                c = self.contents(v, st) if isinstance(v, (SList, LRef)) else None
                if c is None:
                    raise Unsupported("slice store of %r" % (v,))
                zh["L_n"] = z3.Store(zh["L_n"], o.id, c.n)
                zh["L_e"] = z3.Store(zh["L_e"], o.id, c.el)
                yield ("fall", None, st.with_zh(zh))
                return
            n = zh["L_n"][o.id]; el = zh["L_e"][o.id]
            idx = S(i)
            inb = z3.And(0 <= idx, idx < n)            # negative indices: out of the modelled subset, reported as IndexError obligation
            if self.feasible(st, z3.Not(inb)):
                yield ("raise", Exc(IndexError), st.assume(z3.Not(inb)))
            zh["L_e"] = z3.Store(zh["L_e"], o.id, z3.Store(el, idx, self.unwrap_ref(v)))
            yield ("fall", None, st.assume(inb).with_zh(zh))
            return
        if isinstance(o, dict):
            ci = conc(i)
            if ci is NotConcrete:
                raise Unsupported("dict store with symbolic key")
            d = dict(o)
            raise Unsupported("store into by-value dict (aliasing not tracked)")
        raise Unsupported("subscript store on %r" % (o,))

    def s_AugAssign(self, s, st):
        load = ast.copy_location(ast.BinOp(left=self._as_load(s.target), op=s.op, right=s.value), s)
        yield from self.ev(load, st, lambda v, st2: self.assign(s.target, v, st2))

    def _as_load(self, t):
        t2 = ast.parse(ast.unparse(t), mode="eval").body
        return ast.copy_location(t2, t)

    def s_If(self, s, st):
        def k(c, st2):
            c = self.truth(c)
            cc = conc(c)
            if cc is True:
                yield from self.block(s.body, st2)
            elif cc is False:
                yield from self.block(s.orelse, st2)
            else:
                if self.feasible(st2, c):
                    yield from self.block(s.body, st2.assume(c))
                if self.feasible(st2, z3.Not(c)):
                    yield from self.block(s.orelse, st2.assume(z3.Not(c)))
        yield from self.ev(s.test, st, k)

    def s_Try(self, s, st):
        if s.finalbody:
            # try ... finally: the final block runs after every way out of the protected part (falling through, return, raise, break, continue);
            # if it falls through, the way out stands (with the state the final block left), otherwise the final block's own way out replaces it
            if s.handlers or s.orelse:
                inner = ast.copy_location(ast.Try(body=s.body, handlers=s.handlers, orelse=s.orelse, finalbody=[]), s)
                outs = self.s_Try(inner, st)
            else:
                outs = self.block(s.body, st)
            for kind, val, st2 in outs:
                for k2, v2, st3 in self.block(s.finalbody, st2):
                    if k2 == "fall":
                        yield (kind, val, st3)
                    else:
                        yield (k2, v2, st3)
            return
        for kind, val, st2 in self.block(s.body, st):
            if kind == "fall" and s.orelse:
                yield from self.block(s.orelse, st2)
                continue
            if kind != "raise":
                yield (kind, val, st2)
                continue
            handled = False
            for h in s.handlers:
                if h.type is None:
                    match = True
                else:
                    outs = list(self.expr(h.type, st2))
                    if len(outs) != 1 or outs[0][0] != "val":
                        raise Unsupported("handler type")
                    hc = outs[0][1]
                    match = issubclass(val.cls, hc)
                if match:
                    st3 = st2.bind("__exc__", val)
                    if h.name:
                        st3 = st3.bind(h.name, val)
                    yield from self.block(h.body, st3)
                    handled = True
                    break
            if not handled:
                yield (kind, val, st2)

    def s_For(self, s, st):
        if s.orelse:
            raise Unsupported("for/else")
        def k(it, st2):
            if isinstance(it, (list, tuple)):
                yield from self.unroll(s, list(it), st2)
            elif isinstance(it, dict):
                yield from self.unroll(s, list(it.keys()), st2)
            elif isinstance(it, range):
                yield from self.unroll(s, list(it), st2)
            elif isinstance(it, (SList, LRef)) or (isinstance(it, tuple) and it and it[0] == "enumerate"):
                yield from self.symbolic_loop(s, it, st2)
            elif isinstance(it, EnumIter):
                yield from self.symbolic_loop(s, it, st2)
            else:
                raise Unsupported("loop over %r" % (it,))
        yield from self.ev(s.iter, st, k)

    def _inv(self, inv, key, i, st):
        """value of a contract's loop invariant; an invariant that cannot even be evaluated on this version of the function (it was written
        for another shape of the loop, or names a local that is gone) makes the contract inapplicable - not a verdict on the code"""
        try:
            return inv(i, st)
        except Unsupported:
            raise
        except Exception as e:
            raise Unsupported("the invariant given for loop %s#%d cannot be evaluated on this version of the function (%s: %s)" % (key[0], key[1], type(e).__name__, e))

    def unroll(self, s, items, st):
        if not items:
            yield ("fall", None, st)
            return
        for kind, val, st2 in self.assign(s.target, items[0], st):
            if kind != "fall":
                yield (kind, val, st2)
                continue
            for kind2, val2, st3 in self.block(s.body, st2):
                if kind2 in ("fall", "continue"):
                    yield from self.unroll(s, items[1:], st3)
                elif kind2 == "break":
                    yield ("fall", None, st3)
                else:
                    yield (kind2, val2, st3)

    def symbolic_loop(self, s, it, st):
        """for x in <symbolic list>: sidecar invariant keyed by (function label, loop ordinal).
        Three obligations: initially, preserved, and the exit state is `invariant ∧ cursor ≥ length`."""
        fr = self.frames[-1]
        key = (fr.label, fr.loop_index.get(id(s), -1))
        spec = self.invariants.get(key)
        if spec is None:
            raise Unsupported("loop %s#%d needs an invariant" % key)
        enum = isinstance(it, EnumIter)
        lst = it.lst if enum else it
        if isinstance(lst, LRef):
            if not spec.get("live"):
                raise Unsupported("loop over list object: use by-value snapshot in the contract")
            yield from self.live_loop(s, lst, enum, spec, key, st)
            return
        inv = spec["inv"]
        self.obl.append(("%s#loop%d:init" % key, st, self._inv(inv, key, z3.IntVal(0), st)))
        i = fresh("i", I)
        st1 = st
        for name, mk in spec.get("mod", {}).items():
            st1 = st1.bind(name, mk(name))
        zh = dict(st1.zh)
        for f in spec.get("modheap", ()):
            zh[f] = fresh("H_" + f, zh[f].sort())
        st1 = st1.with_zh(zh)
        head = st1.assume(0 <= i, self._inv(inv, key, i, st1))
        body_st = head.assume(i < lst.n)
        elem = lst.mk(lst.el[i])
        tgtval = (i, elem) if enum else elem
        if self.feasible(body_st):
            for kind, val, st2 in self.assign(s.target, tgtval, body_st):
                for kind2, val2, st3 in self.block(s.body, st2):
                    if kind2 in ("fall", "continue"):
                        self.obl.append(("%s#loop%d:preserved" % key, st3, self._inv(inv, key, i + 1, st3)))
                    elif kind2 == "break":
                        yield ("fall", None, st3)              # the loop is left with the state at the break
                    else:
                        yield (kind2, val2, st3)
        yield ("fall", None, head.assume(i >= lst.n))

    def live_loop(self, s, lref, enum, spec, key, st):
        """for x in <list object>: Python's list iterator is an index cursor that reads the CURRENT list at every step and stops when
        the cursor reaches the CURRENT length; the list may be written by the body.  Heap fields named in modheap are havocked at the
        loop head and constrained by the invariant only."""
        inv = spec["inv"]
        self.obl.append(("%s#loop%d:init" % key, st, self._inv(inv, key, z3.IntVal(0), st)))
        i = fresh("i", I)
        st1 = st
        for name, mk in spec.get("mod", {}).items():
            st1 = st1.bind(name, mk(name))
        zh = dict(st1.zh)
        for f in spec.get("modheap", ()):
            zh[f] = fresh("H_" + f, zh[f].sort())
        st1 = st1.with_zh(zh)
        head = st1.assume(0 <= i, self._inv(inv, key, i, st1))
        n_cur = head.zh["L_n"][lref.id]
        body_st = head.assume(i < n_cur)
        elem = lref.mk(head.zh["L_e"][lref.id][i])
        tgtval = (i, elem) if enum else elem
        if self.feasible(body_st):
            for kind, val, st2 in self.assign(s.target, tgtval, body_st):
                for kind2, val2, st3 in self.block(s.body, st2):
                    if kind2 in ("fall", "continue"):
                        self.obl.append(("%s#loop%d:preserved" % key, st3, self._inv(inv, key, i + 1, st3)))
                    elif kind2 == "break":
                        yield ("fall", None, st3)              # the loop is left with the state at the break
                    else:
                        yield (kind2, val2, st3)
        yield ("fall", None, head.assume(i >= n_cur))

    def s_While(self, s, st):
        """while <test>: sidecar invariant keyed by (function label, loop ordinal), `inv(None, st)`.  Obligations: the invariant holds
        on entry; it is preserved by every iteration that falls through (or continues); the state after the loop is
        `invariant and not test` (or the state at a break).  Termination is not proved (partial correctness, as everywhere)."""
        if s.orelse:
            raise Unsupported("while/else")
        fr = self.frames[-1]
        key = (fr.label, fr.loop_index.get(id(s), -1))
        spec = self.invariants.get(key)
        if spec is None:
            raise Unsupported("loop %s#%d needs an invariant" % key)
        inv = spec["inv"]
        self.obl.append(("%s#loop%d:init" % key, st, self._inv(inv, key, None, st)))
        st1 = st
        for name, mk in spec.get("mod", {}).items():
            st1 = st1.bind(name, mk(name))
        zh = dict(st1.zh)
        for f in spec.get("modheap", ()):
            zh[f] = fresh("H_" + f, zh[f].sort())
        st1 = st1.with_zh(zh)
        head = st1.assume(self._inv(inv, key, None, st1))
        def k(c, st2):
            c = self.truth(c)
            if isinstance(c, bool):
                c = z3.BoolVal(c)
            if self.feasible(st2, c):
                for kind2, val2, st3 in self.block(s.body, st2.assume(c)):
                    if kind2 in ("fall", "continue"):
                        self.obl.append(("%s#loop%d:preserved" % key, st3, self._inv(inv, key, None, st3)))
                    elif kind2 == "break":
                        yield ("fall", None, st3)
                    else:
                        yield (kind2, val2, st3)
            if self.feasible(st2, z3.Not(c)):
                yield ("fall", None, st2.assume(z3.Not(c)))
        yield from self.ev(s.test, head, k)

    def s_Delete(self, s, st):
        raise Unsupported("del")

    def s_Global(self, s, st):
        raise Unsupported("global")

    # ------------------------------------------------------------------ expressions
    def expr(self, e, st):
        self._cur_zh = st.zh
        m = getattr(self, "e_" + type(e).__name__, None)
        if m is None:
            raise Unsupported("expression %s" % type(e).__name__)
        yield from m(e, st)

    def seq(self, es, st):
        if not es:
            yield ("val", [], st)
            return
        for tag, v, st2 in self.expr(es[0], st):
            if tag == "raise":
                yield (tag, v, st2)
                continue
            for tag2, vs, st3 in self.seq(es[1:], st2):
                if tag2 == "raise":
                    yield (tag2, vs, st3)
                else:
                    yield ("val", [v] + vs, st3)

    def e_Constant(self, e, st):
        yield ("val", e.value, st)

    def e_Name(self, e, st):
        if e.id in st.env:
            yield ("val", st.env[e.id], st)
            return
        g = self.frames[-1].globs if self.frames else {}
        if e.id in g:
            yield ("val", g[e.id], st)
        elif hasattr(builtins, e.id):
            yield ("val", getattr(builtins, e.id), st)
        else:
            yield ("raise", Exc(NameError), st)

    def mangle(self, attr):
        if attr.startswith("__") and not attr.endswith("__") and self.frames and self.frames[-1].cls_ctx:
            return "_%s%s" % (self.frames[-1].cls_ctx.lstrip("_"), attr)
        return attr

    def e_Attribute(self, e, st):
        attr = self.mangle(e.attr)
        for tag, o, st2 in self.expr(e.value, st):
            if tag == "raise":
                yield (tag, o, st2)
                continue
            yield from self.load_attr(o, attr, st2)

    def load_attr(self, o, attr, st):
        if hasattr(o, "pyvc_attr"):
            yield from o.pyvc_attr(self, attr, st)
            return
        if isinstance(o, Obj):
            a = st.attrs(o)
            if attr in a:
                yield ("val", a[attr], st)
                return
            if attr == "__class__" and o.cls is not None:
                yield ("val", o.cls, st)
                return
            if o.cls is None:
                raise Unsupported("attribute %s of untyped record %r" % (attr, o))
            yield from self.class_attr(o, o.cls, attr, st)
        elif isinstance(o, Exc):
            if attr == "__class__":
                yield ("val", o.cls, st)
            elif hasattr(o.cls, attr):
                raise Unsupported("attribute %s of exception" % attr)
            else:
                yield ("raise", Exc(AttributeError), st)
        elif isinstance(o, Ref):
            if attr == "__class__" and o.cls is not None:
                yield ("val", o.cls, st)
            elif attr == "_refs":
                yield ("val", RefsDict(o), st)
            elif attr in st.zh:
                v = z3.Select(st.zh[attr], o.t)
                rf = self.options.get("ref_fields", ())
                if attr in rf:
                    v = Ref(v, rf[attr]) if isinstance(rf, dict) else Ref(v)          # (a dict also says of which class the referenced objects are)
                yield ("val", v, st)
            elif o.cls is not None:
                yield from self.class_attr(o, o.cls, attr, st)
            else:
                raise Unsupported("heap field %s" % attr)
        elif isinstance(o, Pos):
            if attr == "value":
                # only a LastPos has .value ; an int does not
                if self.feasible(st, o.last):
                    yield ("val", o.v, st.assume(o.last))
                if self.feasible(st, z3.Not(o.last)):
                    yield ("raise", Exc(AttributeError), st.assume(z3.Not(o.last)))
            else:
                raise Unsupported("attribute %s of position" % attr)
        elif isinstance(o, Opt):
            if self.feasible(st, o.isnone):
                yield ("raise", Exc(AttributeError), st.assume(o.isnone))
            if self.feasible(st, z3.Not(o.isnone)):
                yield from self.load_attr(o.val, attr, st.assume(z3.Not(o.isnone)))
        elif inspect.ismodule(o) or inspect.isclass(o):
            if hasattr(o, attr):
                yield ("val", getattr(o, attr), st)
            else:
                yield ("raise", Exc(AttributeError), st)
        elif self.is_text(o):
            if attr in ("format", "join", "split", "upper", "lower", "startswith", "endswith", "strip", "rstrip", "lstrip", "isdigit", "replace", "count", "find"):
                yield ("val", StrMethod(o, attr), st)
            elif hasattr(str, attr):
                raise Unsupported("str.%s" % attr)
            else:
                yield ("raise", Exc(AttributeError), st)
        elif isinstance(o, (list, tuple, dict)):
            if hasattr(type(o), attr):
                yield ("val", StrMethod(o, attr), st)
            else:
                yield ("raise", Exc(AttributeError), st)
        elif isinstance(o, (SList, LRef)):
            yield ("val", StrMethod(o, attr), st)
        elif isinstance(o, RefsDict) and attr == "get":
            yield ("val", StrMethod(o, attr), st)
        elif o is None:
            yield ("raise", Exc(AttributeError), st)
        elif isinstance(o, BoundMethod) or inspect.isfunction(o):
            if attr in ("__name__",):
                yield ("val", Unknown("name"), st)
            else:
                raise Unsupported("attribute of function")
        elif self.is_int(o):
            if attr == "__lt__":
                yield ("val", StrMethod(o, "__lt__"), st)
            elif hasattr(int, attr):
                raise Unsupported("int.%s" % attr)
            else:
                yield ("raise", Exc(AttributeError), st)
        elif type(o).__name__ == "MatchObj":
            if attr == "group":
                yield ("val", StrMethod(o, "group"), st)
            else:
                raise Unsupported("match.%s" % attr)
        elif isinstance(o, Unknown):
            raise Unsupported("attribute of opaque value")
        else:
            raise Unsupported("attr %s on %r" % (attr, o))

    def class_attr(self, o, cls, attr, st):
        try:
            d = inspect.getattr_static(cls, attr)
        except AttributeError:
            if any("__getattr__" in k.__dict__ for k in cls.__mro__[:-1]):
                raise Unsupported("dynamic __getattr__ for %s.%s" % (cls.__name__, attr))
            yield ("raise", Exc(AttributeError), st)
            return
        if isinstance(d, property):
            yield from self.call_function(d.fget, [o], {}, st, "%s.%s" % (cls.__name__, attr))
        elif isinstance(d, types.FunctionType):
            yield ("val", BoundMethod(o, d, attr), st)
        elif isinstance(d, classmethod):
            yield ("val", BoundMethod(cls, d.__func__, attr), st)
        elif isinstance(d, staticmethod):
            yield ("val", d.__func__, st)
        elif isinstance(d, (int, str, bool, list, tuple, dict, type(None))):
            yield ("val", d, st)
        else:
            raise Unsupported("class attribute %s.%s of kind %s" % (cls.__name__, attr, type(d).__name__))

    def e_Tuple(self, e, st):
        for tag, vs, st2 in self.seq(e.elts, st):
            yield (tag, tuple(vs) if tag == "val" else vs, st2)

    def e_List(self, e, st):
        if not e.elts and self.options.get("alloc_lists") and "next_list" in st.zh:
            zh = dict(st.zh)
            nid = zh["next_list"]
            zh["next_list"] = nid + 1
            zh["L_n"] = z3.Store(zh["L_n"], nid, z3.IntVal(0))
            yield ("val", LRef(nid, self.options.get("list_mk")), st.with_zh(zh))
            return
        for tag, vs, st2 in self.seq(e.elts, st):
            yield (tag, list(vs) if tag == "val" else vs, st2)

    def e_Dict(self, e, st):
        if not e.keys and self.options.get("empty_dict") is not None:
            yield ("val", self.options["empty_dict"](), st)          # the contract observes the stores into this dict
            return
        for tag, ks, st2 in self.seq(e.keys, st):
            if tag == "raise":
                yield (tag, ks, st2); continue
            for tag2, vs, st3 in self.seq(e.values, st2):
                if tag2 == "raise":
                    yield (tag2, vs, st3); continue
                cks = [conc(k) for k in ks]
                if any(k is NotConcrete for k in cks):
                    raise Unsupported("dict literal with symbolic key")
                yield ("val", dict(zip(cks, vs)), st3)

    def e_JoinedStr(self, e, st):
        yield ("val", Unknown("fstring"), st)

    def e_UnaryOp(self, e, st):
        for tag, v, st2 in self.expr(e.operand, st):
            if tag == "raise":
                yield (tag, v, st2)
            elif isinstance(e.op, ast.Not):
                t = self.truth(v)
                c = conc(t)
                yield ("val", (not c) if c is not NotConcrete else z3.Not(t), st2)
            elif isinstance(e.op, ast.USub):
                if isinstance(v, int):
                    yield ("val", -v, st2)
                elif self.is_int(v):
                    yield ("val", -v, st2)
                else:
                    raise Unsupported("unary minus on %r" % (v,))
            else:
                raise Unsupported("unary op")

    def e_BoolOp(self, e, st):
        is_and = isinstance(e.op, ast.And)
        def go(vals, st):
            for tag, v, st2 in self.expr(vals[0], st):
                if tag == "raise":
                    yield (tag, v, st2); continue
                if len(vals) == 1:
                    yield ("val", v, st2); continue
                t = self.truth(v)
                c = conc(t)
                stop, cont = (z3.Not(t), t) if is_and else (t, z3.Not(t))
                if c is not NotConcrete:
                    if (c and is_and) or (not c and not is_and):
                        yield from go(vals[1:], st2)
                    else:
                        yield ("val", v, st2)
                    continue
                if self.feasible(st2, stop):
                    yield ("val", v if not (is_sym(v) and z3.is_bool(v)) else z3.BoolVal(not is_and), st2.assume(stop))
                if self.feasible(st2, cont):
                    yield from go(vals[1:], st2.assume(cont))
        yield from go(e.values, st)

    def e_IfExp(self, e, st):
        for tag, c, st2 in self.expr(e.test, st):
            if tag == "raise":
                yield (tag, c, st2); continue
            c = self.truth(c)
            cc = conc(c)
            if cc is True:
                yield from self.expr(e.body, st2)
            elif cc is False:
                yield from self.expr(e.orelse, st2)
            else:
                if self.feasible(st2, c):
                    yield from self.expr(e.body, st2.assume(c))
                if self.feasible(st2, z3.Not(c)):
                    yield from self.expr(e.orelse, st2.assume(z3.Not(c)))

    def e_Compare(self, e, st):
        def go(left, ops, comps, st):
            for tag, b, st2 in self.expr(comps[0], st):
                if tag == "raise":
                    yield (tag, b, st2); continue
                for tag2, r, st3 in self.compare(left, ops[0], b, st2):
                    if tag2 == "raise" or len(ops) == 1:
                        yield (tag2, r, st3); continue
                    t = self.truth(r)
                    if self.feasible(st3, z3.Not(t)):
                        yield ("val", False, st3.assume(z3.Not(t)))
                    if self.feasible(st3, t):
                        yield from go(b, ops[1:], comps[1:], st3.assume(t))
        for tag, a, st1 in self.expr(e.left, st):
            if tag == "raise":
                yield (tag, a, st1); continue
            yield from go(a, e.ops, e.comparators, st1)

    def compare(self, a, op, b, st):
        def ret(r):
            c = conc(r)
            return ("val", c if c is not NotConcrete else r, st)
        if isinstance(op, (ast.Is, ast.IsNot)):
            r = self.identical(a, b)
            yield ret(z3.Not(r) if isinstance(op, ast.IsNot) else r)
        elif isinstance(op, (ast.Eq, ast.NotEq)) and (hasattr(a, "pyvc_eq") or hasattr(b, "pyvc_eq")):
            r = a.pyvc_eq(self, b) if hasattr(a, "pyvc_eq") else b.pyvc_eq(self, a)
            yield ret(z3.Not(r) if isinstance(op, ast.NotEq) else r)
        elif isinstance(op, (ast.Eq, ast.NotEq)):
            m = self.eq_model(a, b)
            if m is not None:
                for tag, r, st2 in m(a, b, st):
                    if tag == "raise":
                        yield (tag, r, st2)
                    else:
                        t = self.truth(r)
                        c = conc(z3.Not(t) if isinstance(op, ast.NotEq) else t)
                        yield ("val", c if c is not NotConcrete else (z3.Not(t) if isinstance(op, ast.NotEq) else t), st2)
                return
            r = self.eq(a, b, st)
            yield ret(z3.Not(r) if isinstance(op, ast.NotEq) else r)
        elif isinstance(op, (ast.In, ast.NotIn)):
            r = self.contains(b, a, st)
            yield ret(z3.Not(r) if isinstance(op, ast.NotIn) else r)
        else:
            if isinstance(a, Opt) or isinstance(b, Opt):
                o = a if isinstance(a, Opt) else b
                if self.feasible(st, o.isnone):
                    yield ("raise", Exc(TypeError), st.assume(o.isnone))
                st = st.assume(z3.Not(o.isnone))
                a = a.val if isinstance(a, Opt) else a
                b = b.val if isinstance(b, Opt) else b
            av = a.v if isinstance(a, Pos) else a
            bv = b.v if isinstance(b, Pos) else b
            if a is None or b is None:
                yield ("raise", Exc(TypeError), st)
                return
            if not (self.is_int(av) and self.is_int(bv)):
                raise Unsupported("ordering of %r and %r" % (a, b))
            av, bv = S(av), S(bv)
            r = {ast.Lt: av < bv, ast.LtE: av <= bv, ast.Gt: av > bv, ast.GtE: av >= bv}[type(op)]
            c = conc(r)
            yield ("val", c if c is not NotConcrete else r, st)

    def eq_model(self, a, b):
        """objects whose class defines __eq__ are compared through the contract of that __eq__"""
        for x in (a, b):
            if isinstance(x, Obj) and x.cls is not None:
                for k in x.cls.__mro__[:-1]:
                    if "__eq__" in k.__dict__:
                        f = k.__dict__["__eq__"]
                        m = self.models.get(f)
                        if m is None:
                            return None
                        other = b if x is a else a
                        return lambda a_, b_, st, m=m, x=x, other=other: self.apply_model(m, [x, other], {}, st)
        return None

    def identical(self, a, b):
        if isinstance(a, Opt) and b is None:
            return a.isnone
        if isinstance(b, Opt) and a is None:
            return b.isnone
        if self.options.get("kinds") and ((isinstance(a, Ref) and a.cls is None and b is None) or (isinstance(b, Ref) and b.cls is None and a is None)):
            r = a if isinstance(a, Ref) else b
            return r.t == NONE_T
        if a is None or b is None:
            return z3.BoolVal(a is None and b is None)
        if isinstance(a, Obj) and isinstance(b, Obj):
            return z3.BoolVal(a.oid == b.oid)
        if isinstance(a, Ref) and isinstance(b, Ref):
            return a.t == b.t
        if inspect.isclass(a) or inspect.isclass(b):
            return z3.BoolVal(a is b)
        if isinstance(a, (Obj, Ref)) or isinstance(b, (Obj, Ref)):
            return z3.BoolVal(False)
        if isinstance(a, bool) and isinstance(b, bool):
            return z3.BoolVal(a is b)
        raise Unsupported("is on %r %r" % (a, b))

    def contains(self, container, x, st):
        if hasattr(container, "pyvc_contains"):
            return container.pyvc_contains(self, x)
        if isinstance(container, (list, tuple)):
            if not container:
                return z3.BoolVal(False)
            return z3.Or(*[self.eq(x, y, st) for y in container])
        if isinstance(container, dict):
            return z3.Or(*[self.eq(x, k, st) for k in container]) if container else z3.BoolVal(False)
        if isinstance(container, str):
            cx = conc(x)
            if isinstance(cx, str):
                return z3.BoolVal(cx in container)
            # x in "ACGT": x is a one-character-or-substring text
            raise Unsupported("symbolic substring test")
        if isinstance(container, SList):
            j = fresh("j", I)
            if getattr(container, "window", None) is not None:
                # x in L[a:b]  <=>  some position of L inside the window holds x  (same statement; no offset arithmetic under the quantifier)
                base, lo = container.window
                return z3.Exists([j], z3.And(lo <= j, j < lo + container.n, self.eq(container.mk(base[j]), x, st)))
            return z3.Exists([j], z3.And(0 <= j, j < container.n, self.eq(container.mk(container.el[j]), x, st)))
        if isinstance(container, RefsDict):
            return st.zh["refs_has"][container.owner.t][S(x)]
        raise Unsupported("in %r" % (container,))

    def e_BinOp(self, e, st):
        for tag, vs, st2 in self.seq([e.left, e.right], st):
            if tag == "raise":
                yield (tag, vs, st2); continue
            yield from self.binop(e.op, vs[0], vs[1], st2)

    def binop(self, op, a, b, st):
        if isinstance(a, Unknown) or isinstance(b, Unknown):
            yield ("val", Unknown("msg"), st); return
        if isinstance(a, Opt) or isinstance(b, Opt):
            o = a if isinstance(a, Opt) else b
            if self.feasible(st, o.isnone):
                yield ("raise", Exc(TypeError), st.assume(o.isnone))
            st = st.assume(z3.Not(o.isnone))
            a = a.val if isinstance(a, Opt) else a
            b = b.val if isinstance(b, Opt) else b
        if isinstance(a, Pos) and isinstance(op, ast.Sub):
            m = self.models.get(("LastPos.__sub__",))
            if m is None:
                raise Unsupported("LastPos.__sub__ needs a contract")
            yield from self.apply_model(m, [a, b], {}, st)
            return
        if self.is_int(a) and self.is_int(b):
            if isinstance(a, int) and isinstance(b, int):
                try:
                    r = {ast.Add: lambda: a + b, ast.Sub: lambda: a - b, ast.Mult: lambda: a * b, ast.FloorDiv: lambda: a // b,
                         ast.Mod: lambda: a % b, ast.Pow: lambda: a ** b}[type(op)]()
                except KeyError:
                    raise Unsupported("int op")
                except ZeroDivisionError:
                    yield ("raise", Exc(ZeroDivisionError), st); return
                yield ("val", r, st); return
            A, Bv = S(a), S(b)
            if isinstance(op, ast.Add):
                yield ("val", A + Bv, st)
            elif isinstance(op, ast.Sub):
                yield ("val", A - Bv, st)
            elif isinstance(op, ast.Mult):
                yield ("val", A * Bv, st)
            elif isinstance(op, (ast.FloorDiv, ast.Mod)):
                if self.feasible(st, Bv == 0):
                    yield ("raise", Exc(ZeroDivisionError), st.assume(Bv == 0))
                if not self.valid(st.assume(Bv != 0), Bv > 0):
                    raise Unsupported("floor division by a possibly negative value")
                yield ("val", (A / Bv) if isinstance(op, ast.FloorDiv) else (A % Bv), st.assume(Bv != 0))
            else:
                raise Unsupported("int op %s" % type(op).__name__)
            return
        if isinstance(op, ast.Add):
            if isinstance(a, str) and isinstance(b, str):
                yield ("val", a + b, st); return
            if isinstance(a, (list, tuple)) and type(a) is type(b):
                yield ("val", a + b, st); return
            if isinstance(a, list) and a and isinstance(b, SList) and all(isinstance(x, Ref) for x in a):
                # [x, ...] + L: the concrete prefix followed by the symbolic list
                k = z3.Int("k!cat")
                body = b.el[k - len(a)]
                for idx in reversed(range(len(a))):
                    body = z3.If(k == idx, a[idx].t, body)
                yield ("val", SList(len(a) + b.n, z3.Lambda([k], body), b.mk), st); return
            if isinstance(a, SList) and isinstance(b, SList):
                k = z3.Int("k!cat")
                yield ("val", SList(a.n + b.n, z3.Lambda([k], z3.If(k < a.n, a.el[k], b.el[k - a.n])), a.mk), st); return
            if self.is_text(a) and self.is_text(b):
                yield ("val", Unknown("concat"), st); return
            if a is None or b is None:
                yield ("raise", Exc(TypeError), st); return
        if isinstance(op, ast.Mod) and isinstance(a, str):
            yield ("val", Unknown("fmt"), st); return
        raise Unsupported("binop %s on %r, %r" % (type(op).__name__, a, b))

    def e_Slice(self, e, st):
        if e.step is not None:
            raise Unsupported("slice step")
        parts = [p for p in (e.lower, e.upper) if p is not None]
        for tag, vs, st2 in self.seq(parts, st):
            if tag == "raise":
                yield (tag, vs, st2); continue
            vs = list(vs)
            lo = vs.pop(0) if e.lower is not None else None
            hi = vs.pop(0) if e.upper is not None else None
            yield ("val", SliceV(lo, hi), st2)

    # ---------- subscripts
    def e_Subscript(self, e, st):
        if isinstance(e.slice, ast.Slice):
            parts = [e.value] + [p for p in (e.slice.lower, e.slice.upper) if p is not None]
            if e.slice.step is not None:
                raise Unsupported("slice step")
            for tag, vs, st2 in self.seq(parts, st):
                if tag == "raise":
                    yield (tag, vs, st2); continue
                o = vs[0]; rest = vs[1:]
                lo = rest.pop(0) if e.slice.lower is not None else None
                hi = rest.pop(0) if e.slice.upper is not None else None
                yield from self.slice(o, lo, hi, st2)
        else:
            for tag, vs, st2 in self.seq([e.value, e.slice], st):
                if tag == "raise":
                    yield (tag, vs, st2); continue
                yield from self.index(vs[0], vs[1], st2)

    def index(self, o, i, st):
        if hasattr(o, "pyvc_getitem"):
            yield from o.pyvc_getitem(self, i, st)
            return
        ci = conc(i)
        if isinstance(o, (list, tuple)):
            if ci is NotConcrete:
                raise Unsupported("symbolic index into concrete sequence")
            try:
                yield ("val", o[ci], st)
            except IndexError:
                yield ("raise", Exc(IndexError), st)
            except TypeError:
                yield ("raise", Exc(TypeError), st)
        elif isinstance(o, dict):
            if ci is NotConcrete:
                # symbolic key into a concrete table: case split over the keys
                any_ = False
                for k, v in o.items():
                    c = self.eq(i, k, st)
                    if self.feasible(st, c):
                        yield ("val", v, st.assume(c)); any_ = True
                none = z3.And(*[z3.Not(self.eq(i, k, st)) for k in o]) if o else z3.BoolVal(True)
                if self.feasible(st, none):
                    yield ("raise", Exc(KeyError), st.assume(none))
                return
            if ci in o:
                yield ("val", o[ci], st)
            else:
                yield ("raise", Exc(KeyError), st)
        elif isinstance(o, str):
            if ci is NotConcrete:
                raise Unsupported("symbolic index into constant string")
            try:
                yield ("val", o[ci], st)
            except IndexError:
                yield ("raise", Exc(IndexError), st)
        elif isinstance(o, VStr) or (is_sym(o) and o.sort() == Str):
            root = o.root if isinstance(o, VStr) else o
            base = o.lift if isinstance(o, VStr) else (lambda R: R)
            ne = self.member(o, z3.Plus(rx.ANY))
            if ci == -1:
                lift = lambda R, base=base: base(z3.Concat(rx.ALL, z3.Intersect(R, rx.ANY)))
            elif ci == 0:
                lift = lambda R, base=base: base(z3.Concat(z3.Intersect(R, rx.ANY), rx.ALL))
            else:
                raise Unsupported("string index %r" % (ci,))
            if self.feasible(st, ne):
                yield ("val", VStr(root, lift, "char[%d]" % ci), st.assume(ne))
            if self.feasible(st, z3.Not(ne)):
                yield ("raise", Exc(IndexError), st.assume(z3.Not(ne)))
        elif isinstance(o, (SList, LRef)):
            if isinstance(o, LRef):
                o = self.contents(o, st)              # the list object as it is now
            iv = S(i)
            n = o.n
            idx = z3.If(iv < 0, iv + n, iv)
            ok = z3.And(0 <= idx, idx < n)
            if self.feasible(st, ok):
                yield ("val", o.mk(o.el[idx]), st.assume(ok))
            if self.feasible(st, z3.Not(ok)):
                yield ("raise", Exc(IndexError), st.assume(z3.Not(ok)))
        elif isinstance(o, RefsDict):
            has = st.zh["refs_has"][o.owner.t][S(i)]
            if self.feasible(st, has):
                yield ("val", LRef(st.zh["refs"][o.owner.t][S(i)], self.options.get("list_mk")), st.assume(has))
            if self.feasible(st, z3.Not(has)):
                yield ("raise", Exc(KeyError), st.assume(z3.Not(has)))
        elif isinstance(o, Obj) and o.cls is not None and hasattr(o.cls, "__getitem__"):
            f = inspect.getattr_static(o.cls, "__getitem__")
            yield from self.call_function(f, [o, i], {}, st, "%s.__getitem__" % o.cls.__name__)
        elif o is None:
            yield ("raise", Exc(TypeError), st)
        elif isinstance(o, Opt):
            if self.feasible(st, o.isnone):
                yield ("raise", Exc(TypeError), st.assume(o.isnone))
            if self.feasible(st, z3.Not(o.isnone)):
                yield from self.index(o.val, i, st.assume(z3.Not(o.isnone)))
        else:
            raise Unsupported("subscript on %r" % (o,))

    def slice(self, o, lo, hi, st):
        clo, chi = conc(lo), conc(hi)
        if isinstance(o, (list, tuple, str)):
            if clo is NotConcrete or chi is NotConcrete:
                raise Unsupported("symbolic slice of concrete sequence")
            yield ("val", o[clo:chi], st); return
        if isinstance(o, VStr) or (is_sym(o) and o.sort() == Str):
            root = o.root if isinstance(o, VStr) else o
            base = o.lift if isinstance(o, VStr) else (lambda R: R)
            ne = self.member(o, z3.Plus(rx.ANY))
            if (clo in (None, 0)) and chi == -1:
                lift = lambda R, base=base: base(z3.Concat(R, rx.ANY)); desc = "init"
            elif clo == 1 and chi is None:
                lift = lambda R, base=base: base(z3.Concat(rx.ANY, R)); desc = "tail"
            else:
                raise Unsupported("string slice [%r:%r]" % (clo, chi))
            if self.feasible(st, ne):
                yield ("val", VStr(root, lift, desc), st.assume(ne))
            if self.feasible(st, z3.Not(ne)):
                yield ("val", "", st.assume(z3.Not(ne)))
            return
        if isinstance(o, (SList, LRef)):
            c = self.contents(o, st)
            lov = S(0 if lo is None else (lo.val if isinstance(lo, Opt) else lo))
            hiv = c.n if hi is None else S(hi.val if isinstance(hi, Opt) else hi)
            # Python clamps the bounds of a slice: negative bounds count from the end, both are brought into [0, n], an empty range is empty
            def clamp(x):
                x = z3.If(x < 0, x + c.n, x)
                return z3.If(x < 0, 0, z3.If(x > c.n, c.n, x))
            lo2, hi2 = clamp(lov), clamp(hiv)
            hi2 = z3.If(hi2 < lo2, lo2, hi2)
            k = z3.Int("k!sl")
            r = SList(hi2 - lo2, z3.Lambda([k], c.el[k + lo2]), c.mk)
            r.window = (c.el, lo2)              # the slice as a window [lo, lo+n) of the list it was taken from (membership is then stated over absolute positions)
            yield ("val", r, st)
            return
        raise Unsupported("slice of %r" % (o,))

    def contents(self, l, st):
        if isinstance(l, SList):
            return l
        return SList(st.zh["L_n"][l.id], st.zh["L_e"][l.id], l.mk)

    # ---------- comprehensions
    def e_DictComp(self, e, st):
        """{k(x): v(x) for x in <concrete list>}: the entries one by one, in order (a Python dict with concrete keys)"""
        if len(e.generators) != 1 or e.generators[0].ifs or not isinstance(e.generators[0].target, ast.Name):
            raise Unsupported("dict comprehension shape")
        g = e.generators[0]
        for tag, it, st2 in self.expr(g.iter, st):
            if tag == "raise":
                yield (tag, it, st2); continue
            if not isinstance(it, (list, tuple)):
                raise Unsupported("dict comprehension over a symbolic iterable")
            saved = st2.env
            def build(items, acc, st3):
                if not items:
                    yield ("val", dict(acc), st3.with_env(saved)); return
                st4 = st3.bind(g.target.id, items[0])
                for tag2, kv, st5 in self.seq([e.key, e.value], st4):
                    if tag2 == "raise":
                        yield (tag2, kv, st5.with_env(saved)); continue
                    kc = conc(kv[0])
                    if kc is NotConcrete:
                        raise Unsupported("dict comprehension with a symbolic key")
                    yield from build(items[1:], acc + [(kc, kv[1])], st5)
            yield from build(list(it), [], st2)

    def e_ListComp(self, e, st):
        if len(e.generators) != 1:
            raise Unsupported("nested comprehension")
        g = e.generators[0]
        for tag, it, st2 in self.expr(g.iter, st):
            if tag == "raise":
                yield (tag, it, st2); continue
            if isinstance(it, dict):
                it = list(it.keys())
            if isinstance(it, PieceList):
                yield from self.bm.comprehension_over_pieces(e, g, it, st2)
                continue
            if isinstance(it, (SList, LRef)) and not g.ifs:
                yield from self.map_alloc(e, g, self.contents(it, st2), st2)
                continue
            if isinstance(it, (SList, LRef)) and g.ifs and isinstance(e.elt, ast.Name) and isinstance(g.target, ast.Name) and e.elt.id == g.target.id:
                yield from self.filter_list(g, self.contents(it, st2), st2)
                continue
            if not isinstance(it, (list, tuple, range)):
                raise Unsupported("comprehension over %r" % (it,))
            saved = st2.env
            def go(items, acc, st):
                if not items:
                    yield ("val", acc, st.with_env(saved)); return
                for kind, _, st3 in self.assign(g.target, items[0], st):
                    def conds(cs, st4):
                        if not cs:
                            for tag2, v, st5 in self.expr(e.elt, st4):
                                if tag2 == "raise":
                                    yield (tag2, v, st5.with_env(saved))
                                else:
                                    yield from go(items[1:], acc + [v], st5)
                            return
                        for tag2, c, st5 in self.expr(cs[0], st4):
                            if tag2 == "raise":
                                yield (tag2, c, st5.with_env(saved)); continue
                            t = self.truth(c)
                            if self.feasible(st5, t):
                                yield from conds(cs[1:], st5.assume(t))
                            if self.feasible(st5, z3.Not(t)):
                                yield from go(items[1:], acc, st5.assume(z3.Not(t)))
                    yield from conds(list(g.ifs), st3)
            yield from go(list(it), [], st2)

    def filter_list(self, g, lst, st):
        """[x for x in <symbolic list> if c(x)]: a fresh list characterised by the axioms of a filter (all true of Python's
        comprehension): an increasing index map f from the result into the source whose image is exactly the positions satisfying c."""
        x = fresh("x!flt", I)
        saved = st.env
        conds = []
        st_c = st.bind(g.target.id, lst.mk(x))
        def ev_all(cs, st4):
            if not cs:
                yield ("val", [], st4); return
            for tag, c, st5 in self.expr(cs[0], st4):
                if tag == "raise":
                    raise Unsupported("filter condition may raise")
                for tag2, rest, st6 in ev_all(cs[1:], st5):
                    yield ("val", [self.truth(c)] + rest, st6)
        outs = list(ev_all(list(g.ifs), st_c))
        if len(outs) != 1 or len(outs[0][2].pc) != len(st_c.pc):
            raise Unsupported("filter condition is not a single pure expression")
        phi = z3.And(*outs[0][1]) if outs[0][1] else z3.BoolVal(True)
        def cond(t):
            return z3.substitute(phi, (x, t))
        _ctr_n = fresh("n!flt", I)
        el2 = fresh("el!flt", z3.ArraySort(I, I))
        f = z3.Function("f!flt%d" % id(el2), I, I)
        ginv = z3.Function("g!flt%d" % id(el2), I, I)
        k, k2, i = z3.Int("k!flt"), z3.Int("k2!flt"), z3.Int("i!flt")
        n2 = _ctr_n
        ax = [0 <= n2, n2 <= lst.n,
              z3.ForAll([k], z3.Implies(z3.And(0 <= k, k < n2), z3.And(0 <= f(k), f(k) < lst.n, cond(lst.el[f(k)]), el2[k] == lst.el[f(k)]))),
              z3.ForAll([k, k2], z3.Implies(z3.And(0 <= k, k < k2, k2 < n2), f(k) < f(k2))),
              z3.ForAll([i], z3.Implies(z3.And(0 <= i, i < lst.n, cond(lst.el[i])), z3.And(0 <= ginv(i), ginv(i) < n2, f(ginv(i)) == i)))]
        yield ("val", SList(n2, el2, lst.mk), st.with_env(saved).assume(*ax))

    def map_alloc(self, e, g, lst, st):
        """[C(f1(x), f2(x)) for x in <symbolic list>] with C an allocatable class: n fresh objects (ids next..next+n-1) whose
        constructor fields are given pointwise; every existing object keeps its fields (allocation never aliases)"""
        elt = e.elt
        if isinstance(elt, ast.Name) and isinstance(g.target, ast.Name) and elt.id == g.target.id:
            # [x for x in L]: a new list holding the SAME objects in the same order (no allocation of elements)
            yield ("val", SList(lst.n, lst.el, lst.mk), st)
            return
        if isinstance(g.target, ast.Name) and isinstance(elt, (ast.Compare, ast.BoolOp, ast.UnaryOp)):
            # (c(x) for x in L) with c a test without control flow of its own: the list of the truth values, pointwise (read by any / all)
            kv = fresh("kx", I)
            stb = st.bind(g.target.id, lst.mk(lst.el[kv]))
            o = list(self.expr(elt, stb))
            if len(o) == 1 and o[0][0] == "val" and len(o[0][2].pc) == len(stb.pc):
                t = self.truth(o[0][1])
                t = z3.BoolVal(t) if isinstance(t, bool) else t
                x = z3.Int("x!map")
                yield ("val", SList(lst.n, z3.Lambda([x], z3.substitute(t, (kv, x))), lambda b: b), st)
                return
            raise Unsupported("comprehension over a symbolic list: test with control flow")
        if not (isinstance(elt, ast.Call) and isinstance(g.target, ast.Name)):
            raise Unsupported("comprehension over a symbolic list: only constructor maps are supported")
        outs = list(self.expr(elt.func, st))
        if len(outs) == 1 and outs[0][0] == "val" and outs[0][1] not in self.alloc:
            # [f(x) for x in L] with f a modelled function of x alone (no allocation, no control flow of its own): the list of the values, pointwise
            kv = fresh("kx", I)
            stb = st.bind(g.target.id, lst.mk(lst.el[kv]))
            o = list(self.expr(elt, stb))
            if len(o) == 1 and o[0][0] == "val" and len(o[0][2].pc) == len(stb.pc) and o[0][2].zh is stb.zh:
                v = o[0][1]
                x = z3.Int("x!map")
                if isinstance(v, Ref):
                    yield ("val", SList(lst.n, z3.Lambda([x], z3.substitute(v.t, (kv, x))), lambda t, cls=v.cls: Ref(t, cls)), st)
                    return
                if is_sym(v):
                    yield ("val", SList(lst.n, z3.Lambda([x], z3.substitute(v, (kv, x))), lambda t: t), st)
                    return
        if len(outs) != 1 or outs[0][0] != "val" or outs[0][1] not in self.alloc:
            raise Unsupported("comprehension over a symbolic list: %s is not an allocatable class" % ast.unparse(elt.func))
        cls = outs[0][1]
        fields = self.alloc[cls]
        if len(elt.args) != len(fields) or elt.keywords:
            raise Unsupported("constructor arity")
        kv = fresh("kx", I)
        stb = st.bind(g.target.id, lst.mk(lst.el[kv]))
        terms = []
        for a in elt.args:
            o = list(self.expr(a, stb))
            if len(o) != 1 or o[0][0] != "val" or not is_sym(S(o[0][1])):
                raise Unsupported("constructor argument with control flow")
            terms.append(S(o[0][1]))
        nxt = st.zh["next"]
        x = z3.Int("x!alloc")
        zh = dict(st.zh)
        for f, t in zip(fields, terms):
            body = z3.substitute(t, (kv, x - nxt))
            zh[f] = z3.Lambda([x], z3.If(z3.And(nxt <= x, x < nxt + lst.n), body, st.zh[f][x]))
        zh["next"] = nxt + lst.n
        k = z3.Int("k!new")
        yield ("val", SList(lst.n, z3.Lambda([k], nxt + k), lambda t, cls=cls: Ref(t, cls)), st.with_zh(zh))

    def e_GeneratorExp(self, e, st):
        yield from self.e_ListComp(e, st)

    def e_Lambda(self, e, st):
        raise Unsupported("lambda")

    # ------------------------------------------------------------------ calls
    def e_Call(self, e, st):
        spelled = ast.unparse(e.func)
        if any(k.arg is None for k in e.keywords):
            raise Unsupported("star-args at call site")
        if any(isinstance(a, ast.Starred) for a in e.args):
            # f(*t) with t a tuple / list whose length is known here: the elements are the arguments
            new_args = []
            for a in e.args:
                if not isinstance(a, ast.Starred):
                    new_args.append(a); continue
                outs = list(self.expr(a.value, st))
                if len(outs) != 1 or outs[0][0] != "val" or not isinstance(outs[0][1], (list, tuple)):
                    raise Unsupported("star-args at call site (not a tuple of known length)")
                new_args.extend(ast.copy_location(ast.Constant(value=v), a) for v in outs[0][1])
            e2 = ast.copy_location(ast.Call(func=e.func, args=new_args, keywords=e.keywords), e)
            yield from self.e_Call(e2, st)
            return
        if spelled in self.name_calls:
            for tag, args, st2 in self.seq(list(e.args) + [k.value for k in e.keywords], st):
                if tag == "raise":
                    yield (tag, args, st2); continue
                pos = args[:len(e.args)]
                kw = dict(zip([k.arg for k in e.keywords], args[len(e.args):]))
                yield from self.apply_model(self.name_calls[spelled], pos, kw, st2)
            return
        for tag, f, st1 in self.expr(e.func, st):
            if tag == "raise":
                yield (tag, f, st1); continue
            for tag2, args, st2 in self.seq(list(e.args) + [k.value for k in e.keywords], st1):
                if tag2 == "raise":
                    yield (tag2, args, st2); continue
                pos = args[:len(e.args)]
                kw = dict(zip([k.arg for k in e.keywords], args[len(e.args):]))
                yield from self.call_value(f, pos, kw, st2, spelled)

    def call_value(self, f, pos, kw, st, spelled="?"):
        if hasattr(f, "pyvc_call"):
            yield from f.pyvc_call(self, pos, kw, st)
            return
        if isinstance(f, BoundMethod):
            yield from self.call_function(f.func, [f.recv] + list(pos), kw, st, spelled)
        elif isinstance(f, StrMethod):
            yield from self.bm.str_method(f.recv, f.name, pos, kw, st)
        elif inspect.isclass(f):
            if issubclass(f, BaseException):
                # constructing an exception: arity errors are modelled for the JSON family (table checked in crosscheck)
                yield ("val", Exc(f, pos), st)
            elif f in self.models:
                yield from self.apply_model(self.models[f], pos, kw, st)
            elif f in self.bm.table:
                yield from self.bm.table[f](st, pos, kw)
            else:
                newf = f.__dict__.get("__new__")
                if newf is not None:
                    fn = newf.__func__ if isinstance(newf, staticmethod) else newf
                    yield from self.call_function(fn, [f] + list(pos), kw, st, spelled)
                else:
                    raise Unsupported("constructor %s needs a contract" % f.__name__)
        elif inspect.isfunction(f) or inspect.isbuiltin(f) or isinstance(f, (types.BuiltinFunctionType, types.MethodDescriptorType)):
            yield from self.call_function(f, pos, kw, st, spelled)
        elif isinstance(f, types.MethodType):
            yield from self.call_function(f.__func__, [f.__self__] + list(pos), kw, st, spelled)
        elif callable(f) and hasattr(f, "pyvc_model"):
            yield from self.apply_model(f, pos, kw, st)
        else:
            raise Unsupported("call of %r (%s)" % (f, spelled))

    def call_function(self, f, pos, kw, st, spelled="?"):
        if f in self.models:
            yield from self.apply_model(self.models[f], pos, kw, st)
        elif f in self.bm.table:
            yield from self.bm.table[f](st, pos, kw)
        elif f in self.inline:
            node, info = frontend.load_function(self.repo, f)
            self.inlined[info["qualname"]] = info
            yield from [(("val" if k == "return" else "raise"), v, s2) for k, v, s2 in self.call_body(f, node, pos, kw, st, info["qualname"])]
        else:
            raise Unsupported("call %s: callee %s has no contract" % (spelled, getattr(f, "__qualname__", f)))

    def apply_model(self, m, pos, kw, st):
        """a model yields (tag, value, conds[, st']) ; conds are added to the path condition"""
        for out in m(self, st, pos, kw):
            tag, val, conds = out[0], out[1], out[2]
            st2 = out[3] if len(out) > 3 else st
            st2 = st2.assume(*conds) if conds else st2
            if conds and not self.feasible(st2):
                continue
            yield (tag, val, st2)


class EnumIter:
    def __init__(self, lst):
        self.lst = lst


class PieceList:
    """result of text.split(sep): an unbounded list of pieces of the root text"""
    def __init__(self, src, sep):
        self.src, self.sep = src, sep
