"""Small helpers to state contracts once and use them (a) as obligations on the function's own body,
(b) as the model seen by callers, (c) as the oracle of the replay."""
import z3
from .contract import Contract, Case
from .values import *


def pos(name):
    return Pos(z3.Int(name + "_v"), z3.Bool(name + "_last"))


def enum(name, values):
    v = z3.String(name)
    return v, z3.Or(*[v == x for x in values])


def sv(x):
    return z3.StringVal(x)


def ite_str(c, a, b):
    return z3.If(c, sv(a) if isinstance(a, str) else a, sv(b) if isinstance(b, str) else b)


def one_of(v, values):
    return z3.Or(*[S(v) == S(x) for x in values])


def result_is(kind, val, want, E=None):
    """post helper: the path returns and the value equals `want` (Python consts / z3 terms / tuples)"""
    if kind != "return":
        return z3.BoolVal(False)
    return veq(val, want)


def veq(a, b):
    if isinstance(a, (tuple, list)) or isinstance(b, (tuple, list)):
        if not (isinstance(a, (tuple, list)) and isinstance(b, (tuple, list))) or len(a) != len(b):
            return z3.BoolVal(False)
        return z3.And(*[veq(x, y) for x, y in zip(a, b)]) if a else z3.BoolVal(True)
    if a is None or b is None:
        if isinstance(a, Opt):
            return a.isnone
        if isinstance(b, Opt):
            return b.isnone
        return z3.BoolVal(a is None and b is None)
    if isinstance(a, Pos) and isinstance(b, Pos):
        return z3.And(a.v == b.v, a.last == b.last)
    if isinstance(a, Pos) or isinstance(b, Pos):
        p, o = (a, b) if isinstance(a, Pos) else (b, a)
        if is_sym(o) and o.sort() == I or isinstance(o, int):
            return z3.And(z3.Not(p.last), p.v == S(o))
        return z3.BoolVal(False)
    if isinstance(a, bool) and isinstance(b, bool):
        return z3.BoolVal(a == b)
    try:
        return S(a) == S(b)
    except Exception:
        return z3.BoolVal(False)


def raises_iff(kind, val, table, otherwise):
    """table: list of (exception class, condition). The path must raise class C exactly under its condition and
    return normally exactly when no condition holds; `otherwise(val)` is the value clause of the normal case."""
    none = z3.And(*[z3.Not(c) for _, c in table]) if table else z3.BoolVal(True)
    if kind == "raise":
        ok = [c for k, c in table if val.cls is k]
        return z3.Or(*ok) if ok else z3.BoolVal(False)
    return z3.And(none, otherwise(val))


def model_from(table_fn, value_fn):
    """caller-side model from the same two ingredients: table_fn(args)->[(cls,cond)], value_fn(args)->value"""
    def m(E, st, pos, kw):
        table = table_fn(*pos, **kw)
        for cls, c in table:
            yield ("raise", Exc(cls), [c])
        none = [z3.Not(c) for _, c in table]
        yield ("val", value_fn(*pos, **kw), none)
    m.pyvc_model = True
    return m


def const_model(fn):
    """model of a total function without exceptions: value = fn(*args)"""
    def m(E, st, pos, kw):
        yield ("val", fn(*pos, **kw), [])
    m.pyvc_model = True
    return m


def battery_confirm(witness, out):
    """replay by a concrete battery on the real code: the battery returns True (every case holds) or a description of the first failing
    case.  A failing case confirms the violation; a battery that itself raises confirms nothing (None: reported as replay error)."""
    if out.get("kind") == "return":
        return out.get("value") is not True
    return None
